From stdpp Require Import gmap list.
From Coq Require Import ZArith Lia.
Require Import G J.

Fixpoint back (f:nat) (d:dir) (l:list change) (m:fs) (k:sched) : fs * sched :=
  match l with [] => (m,k)
  | c::rest => match run true f k (opp d) c m with Ok m'' k'' _ => back f d rest m'' k'' | Err m'' k'' _ => (m'',k'') end end.
Fixpoint loop (f:nat) (d:dir) (l:list change) (m:fs) (k:sched) (done:list change) : res (list change) :=
  match l with
  | [] => Ok m k done
  | c::rest => match run true f k d c m with
               | Ok m' k' c' => loop f d rest m' k' (c'::done)
               | Err m' k' x => let '(mb,kb) := back f d done m' k' in Err mb kb x end
  end.
Lemma run_CS f d cs m k :
  run true (S f) k d (CS cs) m =
  match loop f d (match d with Do => cs | Undo => rev cs end) m k [] with
  | Ok m' k' done => Ok m' k' (CS (match d with Do => rev done | Undo => done end))
  | Err m' k' x => Err m' k' x end.
Proof.
  cbn [run].
  match goal with |- match ?g ?ll m k [] with _ => _ end = _ =>
    assert (H: forall l0 m0 k0 done0, g l0 m0 k0 done0 = loop f d l0 m0 k0 done0) end.
  { clear. induction l0 as [|c rest IH]; intros m0 k0 done0; cbn [loop]; [reflexivity|].
    destruct (run true f k0 d c m0) as [m' k' c'|m' k' x]; [apply IH|].
    match goal with |- (let '(_,_) := ?b _ m' k' in _) = _ =>
      assert (Hb: forall l1 m1 k1, b l1 m1 k1 = back f d l1 m1 k1) end.
    { clear. induction l1 as [|c rest IH]; intros m1 k1; cbn [back]; [reflexivity|].
      destruct (run true f k1 (opp d) c m1); [apply IH|reflexivity]. }
    rewrite Hb. reflexivity. }
  rewrite H. reflexivity.
Qed.
Lemma run_leaf f d c m k : is_leaf c -> run true (S f) k d c m = leaf k d c m.
Proof. destruct c; cbn; tauto. Qed.


Lemma leaf_ok_is_leaf k d c m m1 k1 c1 : leaf k d c m = Ok m1 k1 c1 -> is_leaf c1.
Proof.
  destruct c, d; cbn [leaf]; unfold lift;
  repeat match goal with
  | |- context [match ?o with Some _ => _ | None => _ end] => destruct o eqn:?
  | |- context [match prim ?a ?b ?c ?d with inl _ => _ | inr _ => _ end] => destruct (prim a b c d) as [[? ?]|[[? ?] ?]]
  end; intros H; try discriminate; inversion H; subst; exact I.
Qed.

Fixpoint fresh (c:change) : Prop :=
  match c with CC _ _ old => old = None
  | CS cs => (fix all l := match l with [] => True | x::xs => fresh x /\ all xs end) cs | _ => True end.
Fixpoint fresh_all (l:list change) : Prop := match l with [] => True | x::xs => fresh x /\ fresh_all xs end.
Lemma fresh_CS cs : fresh (CS cs) <-> fresh_all cs.
Proof. cbn [fresh]. induction cs; cbn; tauto. Qed.

(* undoing [l] (most recent first) without faults from m1 succeeds and yields m0 *)
Definition undoes (f:nat) (l:list change) (m1 m0:fs) : Prop :=
  forall acc, exists done2, loop f Undo l m1 None acc = Ok m0 None done2.

Lemma undoes_nil f m : undoes f [] m m. Proof. intros acc. cbn. eauto. Qed.
Lemma undoes_cons f c l m2 m1 m0 c2 :
  run true f None Undo c m2 = Ok m1 None c2 -> undoes f l m1 m0 -> undoes f (c::l) m2 m0.
Proof. intros H1 H2 acc. cbn [loop]. rewrite H1. apply H2. Qed.


Lemma leaf_case f c m m1 k1 c1 : is_leaf c -> fresh c ->
  run true (S f) None Do c m = Ok m1 k1 c1 ->
  k1 = None /\ exists c2, run true (S f) None Undo c1 m1 = Ok m None c2.
Proof.
  intros Hl Hf H. rewrite run_leaf in H by exact Hl.
  pose proof (leaf_ok_is_leaf _ _ _ _ _ _ _ H) as Hl1.
  assert (Hfr: forall p n o, c = CC p n o -> o = None) by (intros ? ? ? ->; exact Hf).
  destruct (leaf_inverse _ _ _ _ _ Hl Hfr H) as [Hk [c2 Hc2]].
  split; [exact Hk|]. exists c2. rewrite run_leaf by exact Hl1. exact Hc2.
Qed.

(* the inverse property at a given fuel *)
Definition INV (f:nat) : Prop :=
  forall c m m1 k1 c1, fresh c -> run true f None Do c m = Ok m1 k1 c1 ->
    k1 = None /\ exists c2, run true f None Undo c1 m1 = Ok m None c2.

Lemma loop_do_inv f (IH: INV f) :
  forall l m done m1 k1 done1 m0, fresh_all l -> undoes f done m m0 ->
    loop f Do l m None done = Ok m1 k1 done1 ->
    k1 = None /\ undoes f done1 m1 m0.
Proof.
  induction l as [|c l IHl]; intros m done m1 k1 done1 m0 Hf Hu H; cbn [loop] in H.
  - inversion H; subst. auto.
  - destruct Hf as [Hc Hl]. destruct (run true f None Do c m) as [m' k' c'|m' k' x] eqn:Ec.
    + destruct (IH _ _ _ _ _ Hc Ec) as [-> [c2 Hc2]].
      eapply IHl; [exact Hl| |exact H]. eapply undoes_cons; eauto.
    + destruct (back f Do done m' k'); discriminate.
Qed.

Theorem inv_all f : INV f.
Proof.
  induction f as [|f IH]; intros c m m1 k1 c1 Hf H; [discriminate|].
  destruct c as [p n o|p q|p|cs].
  1-3: eapply leaf_case; eauto; exact I.
  rewrite run_CS in H. destruct (loop f Do cs m None []) as [m' k' done|m' k' x] eqn:El; [|discriminate].
  inversion H; subst; clear H. apply fresh_CS in Hf.
  destruct (loop_do_inv f IH _ _ _ _ _ _ m Hf (undoes_nil f m) El) as [-> Hu].
  split; [reflexivity|]. rewrite run_CS. rewrite rev_involutive.
  destruct (Hu []) as [d2 Hd2]. rewrite Hd2. eauto.
Qed.
Print Assumptions inv_all.
