From stdpp Require Import gmap list.
From Coq Require Import ZArith Lia.
Require Import G J K.

(* leaf inverse under any countdown that did not fire *)
Lemma leaf_inverse_k k c m m1 k1 c1 :
  is_leaf c -> (forall p n o, c = CC p n o -> o = None) ->
  leaf k Do c m = Ok m1 k1 c1 -> exists c2, leaf None Undo c1 m1 = Ok m None c2.
Proof.
  intros Hl Hfr H.
  assert (H': exists k1', leaf None Do c m = Ok m1 k1' c1).
  { destruct c as [p n o|p q|p|cs]; cbn [leaf prim lift] in *; try (destruct Hl);
    destruct k as [[|j]|]; cbn [prim] in *;
    repeat match goal with
    | |- context [match ?o with Some _ => _ | None => _ end] => destruct o eqn:?
    | H : context [match ?o with Some _ => _ | None => _ end] |- _ => destruct o eqn:?
    end; cbn in *; try discriminate; inversion H; subst; eauto. }
  destruct H' as [k1' H']. destruct (leaf_inverse _ _ _ _ _ Hl Hfr H') as [_ R]. exact R.
Qed.

Definition INVk (f:nat) : Prop :=
  forall k c m m1 k1 c1, fresh c -> run true f k Do c m = Ok m1 k1 c1 ->
    exists c2, run true f None Undo c1 m1 = Ok m None c2.

Lemma loop_do_invk f (IH: INVk f) :
  forall l m k done m1 k1 done1 m0, fresh_all l -> undoes f done m m0 ->
    loop f Do l m k done = Ok m1 k1 done1 -> undoes f done1 m1 m0.
Proof.
  induction l as [|c l IHl]; intros m k done m1 k1 done1 m0 Hf Hu H; cbn [loop] in H.
  - inversion H; subst. auto.
  - destruct Hf as [Hc Hl]. destruct (run true f k Do c m) as [m' k' c'|m' k' x] eqn:Ec.
    + destruct (IH _ _ _ _ _ _ Hc Ec) as [c2 Hc2].
      eapply IHl; [exact Hl| |exact H]. eapply undoes_cons; eauto.
    + destruct (back f Do done m' k'); discriminate.
Qed.

Theorem invk_all f : INVk f.
Proof.
  induction f as [|f IH]; intros k c m m1 k1 c1 Hf H; [discriminate|].
  destruct c as [p n o|p q|p|cs].
  1-3: rewrite run_leaf in H by exact I;
       pose proof (leaf_ok_is_leaf _ _ _ _ _ _ _ H) as Hl1;
       (edestruct leaf_inverse_k as [c2 Hc2]; [| |exact H|]);
       [exact I|intros ? ? ? E; inversion E; subst; try exact Hf; reflexivity|
        exists c2; rewrite run_leaf; assumption].
  rewrite run_CS in H. destruct (loop f Do cs m k []) as [m' k' done|m' k' x] eqn:El; [|discriminate].
  inversion H; subst; clear H. apply fresh_CS in Hf.
  pose proof (loop_do_invk f IH _ _ _ _ _ _ _ m Hf (undoes_nil f m) El) as Hu.
  rewrite run_CS. rewrite rev_involutive. destruct (Hu []) as [d2 Hd2]. rewrite Hd2. eauto.
Qed.


(* a run without schedule ends without schedule *)
Definition res_k {A} (r:res A) : sched := match r with Ok _ k _ => k | Err _ k _ => k end.
Lemma leaf_none d c m : res_k (leaf None d c m) = None.
Proof.
  destruct c, d; cbn [leaf prim lift];
  repeat match goal with
  | |- context [match ?o with Some _ => _ | None => _ end] => destruct o eqn:?
  end; reflexivity.
Qed.
Lemma back_none f d : (forall dd c m, res_k (run true f None dd c m) = None) -> forall l m, snd (back f d l m None) = None.
Proof.
  intros IH. induction l as [|c l IHl]; intros m; cbn [back]; [reflexivity|].
  pose proof (IH (opp d) c m) as E. destruct (run true f None (opp d) c m); cbn in E; subst; [apply IHl|reflexivity].
Qed.
Lemma loop_none f d : (forall dd c m, res_k (run true f None dd c m) = None) -> forall l m done, res_k (loop f d l m None done) = None.
Proof.
  intros IH. induction l as [|c l IHl]; intros m done; cbn [loop]; [reflexivity|].
  pose proof (IH d c m) as E. destruct (run true f None d c m) as [m' k' c'|m' k' x]; cbn in E; subst; [apply IHl|].
  pose proof (back_none f d IH done m') as B. destruct (back f d done m' None); cbn in *; subst; reflexivity.
Qed.
Lemma run_none f : forall d c m, res_k (run true f None d c m) = None.
Proof.
  induction f as [|f IH]; intros d c m; [reflexivity|].
  destruct c as [p n o|p q|p|cs]; try (rewrite run_leaf by exact I; apply leaf_none).
  rewrite run_CS. pose proof (loop_none f d IH (match d with Do => cs | Undo => rev cs end) m []) as E.
  destruct (loop f d _ m None []); cbn in *; exact E.
Qed.

Definition run_none_fwd := run_none.

Lemma loop_undo_acc' f l m acc m' r : loop f Undo l m None acc = Ok m' None r -> forall acc2, exists r2, loop f Undo l m None acc2 = Ok m' None r2.
Proof.
  revert m acc. induction l as [|c l IH]; intros m acc H acc2; cbn [loop] in *.
  - inversion H; subst. eauto.
  - destruct (run true f None Undo c m) as [m1 k1 c1|m1 k1 x] eqn:E.
    + pose proof (run_none_fwd f Undo c m) as EN. rewrite E in EN. cbn in EN. subst. eapply IH; eauto.
    + destruct (back f Undo acc m1 k1); discriminate.
Qed.

(* compensation = undoing the done list *)
Lemma back_undoes f l m1 m0 : undoes f l m1 m0 -> back f Do l m1 None = (m0, None).
Proof.
  revert m1. induction l as [|c l IH]; intros m1 Hu.
  - destruct (Hu []) as [d H]. cbn in H. inversion H; subst. reflexivity.
  - cbn [back opp]. destruct (Hu []) as [d H]. cbn [loop] in H.
    pose proof (run_none f Undo c m1) as EN.
    destruct (run true f None Undo c m1) as [m'' k'' c''|m'' k'' x] eqn:E; cbn in EN; subst.
    + apply IH. intros acc. destruct (Hu acc) as [d' H']. cbn [loop] in H'. rewrite E in H'.
      destruct (loop_undo_acc' f l m'' _ _ _ H' acc) as [r Hr]. eauto.
    + cbn in H. discriminate.
Qed.


(* ---------- failure atomicity ---------- *)
Definition ATOM (f:nat) : Prop :=
  forall k c m m1 k1 x, fresh c -> run true f k Do c m = Err m1 k1 x -> (k = None \/ x = Fault) ->
    m1 = m /\ k1 = None.

Lemma leaf_atom k c m m1 k1 x : leaf k Do c m = Err m1 k1 x -> (k = None \/ x = Fault) -> m1 = m /\ k1 = None.
Proof.
  intros H Hk. split; [eapply leaf_fail_frame; eauto|].
  destruct c as [p n o|p q|p|cs]; cbn [leaf prim lift] in H;
  destruct k as [[|j]|]; cbn [prim] in H;
  repeat match goal with
  | H : context [match ?o with Some _ => _ | None => _ end] |- _ => destruct o eqn:?
  end; cbn in H; try discriminate; inversion H; subst; try reflexivity;
  destruct Hk as [Hk|Hk]; discriminate.
Qed.

Lemma loop_atom f (IHa: ATOM f) :
  forall l m k done m1 k1 x m0, fresh_all l -> undoes f done m m0 ->
    loop f Do l m k done = Err m1 k1 x -> (k = None \/ x = Fault) -> m1 = m0 /\ k1 = None.
Proof.
  induction l as [|c l IHl]; intros m k done m1 k1 x m0 Hf Hu H Hk; cbn [loop] in H; [discriminate|].
  destruct Hf as [Hc Hl]. destruct (run true f k Do c m) as [m' k' c'|m' k' x'] eqn:Ec.
  - destruct (invk_all f _ _ _ _ _ _ Hc Ec) as [c2 Hc2].
    eapply IHl; [exact Hl| |exact H|].
    + eapply undoes_cons; eauto.
    + destruct Hk as [->|Hk]; [left|right; exact Hk].
      pose proof (run_none f Do c m) as EN. rewrite Ec in EN. exact EN.
  - destruct (back f Do done m' k') as [mb kb] eqn:Eb. inversion H; subst; clear H.
    destruct (IHa _ _ _ _ _ _ Hc Ec Hk) as [-> ->].
    rewrite (back_undoes f done m m0 Hu) in Eb. inversion Eb; subst. auto.
Qed.

Theorem atom_all f : ATOM f.
Proof.
  induction f as [|f IH]; intros k c m m1 k1 x Hf H Hk.
  - cbn in H. inversion H; subst. destruct Hk as [->|Hk]; [auto|discriminate].
  - destruct c as [p n o|p q|p|cs]; try (rewrite run_leaf in H by exact I; eapply leaf_atom; eauto).
    rewrite run_CS in H. destruct (loop f Do cs m k []) as [m' k' done|m' k' x'] eqn:El; [discriminate|].
    inversion H; subst; clear H. apply fresh_CS in Hf.
    eapply loop_atom; eauto. apply undoes_nil.
Qed.
Print Assumptions atom_all.
